"""C08 -- sequence evaluation equals one-at-a-time evaluation."""
import ast
import re

from ..core.db import AnalysisError, norm_stmt, walk_no_nested
from ..core.interp import Interp, Const, Tup, Unknown
from ..core.norm import Rat
from ..domains.normdom import Sym
from ..domains.order import SeqV, OutV
from ..domains.shape import ShapeDomain, Sh, Scalar, NsV, Dim, PairsV
from . import polyfam as PF
from .c07 import log_obligations
from .common import norm_interp, returns, as_rat

P = 'prysm.polynomials.'
DER_SEQ = {
    PF.PJ + 'jacobi_der_seq': ('jacobi', ['alpha', 'beta'], 'jacobi'),
    PF.PH + 'hermite_He_der_seq': ('hermite_He', [], 'He'),
    PF.PH + 'hermite_H_der_seq': ('hermite_H', [], 'H'),
}


def expected_value(dom, fam, pv, e):
    """Reference value of order e (Rat): explicit closed form for small constants, atom otherwise."""
    if e.num.is_const() and e.den.is_const():
        k = e.num.const_value() / e.den.const_value()
        if k.denominator == 1 and 0 <= k <= 4:
            return dom.explicit(fam, pv, int(k))
    return dom.P(dom.fkey(fam, pv), e)


def expected_der(dom, kind, pv, e):
    """Reference derivative of order e."""
    R = dom.R
    zero = Rat(R.const(0))
    if kind == 'jacobi':
        a, b = pv['alpha'], pv['beta']
        pv1 = {'alpha': a + 1, 'beta': b + 1}
        coef = (e + a + b + 1) / 2
        fam = 'jacobi'
    elif kind == 'He':
        pv1, coef, fam = {}, e, 'hermite_He'
    else:
        pv1, coef, fam = {}, 2 * e, 'hermite_H'
    if e.is_zero():
        return zero
    return coef * expected_value(dom, fam, pv1, e - 1)


def emit_rules(run, db):
    """The general (symbolic order list) decision per sequence function; where the ORDER engine cannot follow a function (its
    recurrence is organised in a way it does not read), the function is decided for fixed order lists instead
    (sa/rules/fixedorders.py) -- bounded, stated in the evidence -- and only if that is not possible either the run refuses."""
    table = [(q, fam, pn, None) for q, (fam, pn) in sorted(PF.SEQ_FUNS.items())] + [(q, fam, pn, kind) for q, (fam, pn, kind) in sorted(DER_SEQ.items())]
    undecided = []
    for qual, fam, pnames, der in table:
        try:
            _emit_one(run, db, qual, fam, pnames, der)
        except AnalysisError as e:
            undecided.append((qual, str(e)))
    if undecided:
        from . import fixedorders as FO
        for qual, msg in undecided:
            short = qual.split('prysm.polynomials.', 1)[-1]
            fams = [f_ for f_ in FO.FAMILIES if f_[0] == short]
            if not fams:
                raise AnalysisError(msg)
            try:
                results = FO.compare_family(db, fams[0][0], fams[0][1], fams[0][2], fams[0][3], FO.ORDER_LISTS)
            except (AnalysisError, RecursionError):
                raise AnalysisError(msg)
            fs = db.func(qual)
            for label, bad in results:
                run.check(not bad, 'C08.emit', fs.qual, 'fixed orders: ' + label, 'slot i of %s equals the single-order function of the order requested there (decided for fixed order lists; the general rule does not read this organisation of the routine)' % label,
                          '%s: %s' % (label, '; '.join(bad[:3])), fs.loc())
            if hasattr(run, 'info'):
                run.info('C08.emit: %s decided for fixed order lists only (%s)' % (short, msg[:120]))


def _emit_one(run, db, qual, fam, pnames, der):
    f = db.func(qual)
    it, dom = PF.mk_order(db)
    R = dom.R
    kw = lambda: dict({'ns': SeqV('ns'), 'x': dom.sym('x')}, **{p: dom.sym(p) for p in pnames})
    res = it.run(f, kwargs=kw)
    pv = {p: Rat(R.atom(p)) for p in pnames}
    pv_loop = pv if der != 'jacobi' else {'alpha': pv['alpha'] + 1, 'beta': pv['beta'] + 1}
    seen = set()
    log_obligations(run, dom, 'C08.emit', seen)
    nstores = 0
    keyseen = set()
    bound_ok = None
    for e in dom.log:
        if e['kind'] == 'bound' and e['fn'] == qual:
            want = Rat(R.atom('ns[%s]' % Rat(R.const(-1)).key())) + 1
            bound_ok = (e['hi'] == want, e['hi'])
    if bound_ok is None:
        raise AnalysisError('%s: recurrence loop not analysed' % qual)
    run.check(bound_ok[0], 'C08.emit', f.qual, 'loop bound', 'the sweep runs up to the last requested order (ns[-1])',
              'the recurrence sweep stops at %s, expected ns[-1] + 1 (exclusive)' % bound_ok[1].key(), f.loc())
    for p in res:
        outs = [e['store'] for e in p.events if e['kind'] == 'emit']
        # pre-loop stores must use consecutive indices 0, 1, 2 ...
        k = 0
        for st in outs:
            ri = dom.rat(st['idx'])
            if ri is not None and ri.num.is_const() and ri.den.is_const():
                if not (ri == Rat(R.const(k))):
                    run.finding('C08.emit', f.qual, 'slot order', 'mode stored in slot %s but %d mode(s) were stored before it: requested order and output order disagree' % (ri.key(), k), f.loc(st['node']))
                k += 1
        for st in outs:
            nstores += 1
            g = st['guard']
            val = dom.rat(st['value'])
            ri = dom.rat(st['idx'])
            if g is None or val is None or ri is None:
                raise AnalysisError('%s: store %s has no analysable guard/value (guard %r)' % (qual, ast.unparse(st['node']), g))
            text, lhs, rhs = g
            rl, rr = dom.rat(lhs), dom.rat(rhs)
            # which slot of ns does the guard test?
            ats = [a for a in rl.atoms() if a.startswith('ns[')]
            if len(ats) != 1:
                raise AnalysisError('%s: guard %s does not test one element of ns' % (qual, text))
            gidx = ats[0][3:-1]
            order = rr - (rl - Rat(R.atom(ats[0])))          # ns[j] + shift == rhs  ->  ns[j] == rhs - shift
            key = (ri.key(), gidx, order.key(), val.key())
            if key in keyseen:
                continue
            keyseen.add(key)
            run.check(ri.key() == gidx, 'C08.emit', f.qual, 'slot %s' % ast.unparse(st['node'].targets[0]) if hasattr(st['node'], 'targets') else 'slot',
                      'the mode is stored in the slot whose requested order was tested', 'mode stored in slot %s under a test of ns[%s]' % (ri.key(), gidx), f.loc(st['node']))
            if der is None:
                want = expected_value(dom, fam, pv, order)
            else:
                want = expected_der(dom, der, pv, order)
            got = val
            c = dom.canon(val, fam, pv_loop)
            ok = (val == want) or (c is not None and c == want)
            if not ok and der is not None:
                # coef * P[..]: canonicalise the polynomial factor
                ok = _scaled_equal(dom, val, want, fam, pv_loop)
            run.check(ok, 'C08.emit', f.qual, 'value for guard %s' % text.replace('min_i', 'k'),
                      'under `%s` the stored value denotes order %s' % (text, order.key()),
                      'under the guard `%s` the stored value is %s, which is not the order-%s %s (expected %s)' % (text, val.key(), order.key(), 'derivative' if der else 'polynomial', want.key()), f.loc(st['node']))
    if nstores < 4:
        raise AnalysisError('%s: fewer than 4 emission stores analysed' % qual)


def _scaled_equal(dom, val, want, fam, pv):
    """val == want where val may contain a recurrence expression not yet folded into an atom."""
    ats = [a for a in want.atoms() if a in dom.patoms]
    if len(ats) != 1:
        return False
    fk, idx = dom.patoms[ats[0]]
    F = dom.family(fam, pv)
    expanded = F.c1(idx - 1) * dom.P(fk, idx - 1) - F.c2(idx - 1) * dom.P(fk, idx - 2)
    return val == want.subs({ats[0]: expanded})


# --------------------------------------------------------------------------
def _seq_summary(dom, fi, args, kwargs, node):
    x = kwargs.get('x', args[-1] if args else None)
    if isinstance(x, Sh):
        return Sh(('K',) + x.dims)
    if isinstance(x, (Scalar, Const)):
        return Sh(('K',))
    return Unknown('seq of unknown x')


def _abc_summary(dom, fi, args, kwargs, node):
    return Tup([Scalar(), Scalar(), Scalar()])


SHAPE_FUNS = ([P + 'cheby.cheby%d%s_seq' % (k, d) for k in (1, 2, 3, 4) for d in ('', '_der')] +
              [P + 'legendre.legendre_seq', P + 'legendre.legendre_der_seq', PF.PJ + 'jacobi_seq', PF.PJ + 'jacobi_der_seq',
               PF.PH + 'hermite_He_seq', PF.PH + 'hermite_He_der_seq', PF.PH + 'hermite_H_seq', PF.PH + 'hermite_H_der_seq',
               PF.PL + 'laguerre_seq', PF.PL + 'laguerre_der_seq', PF.PD + 'dickson1_seq', PF.PD + 'dickson2_seq'])


def shape_rules(run, db):
    for qual in SHAPE_FUNS:
        f = db.func(qual)
        direct = qual in (PF.PJ + 'jacobi_seq', PF.PJ + 'jacobi_der_seq')
        for rank in range(0, 4):
            S = tuple('S%d' % i for i in range(rank))
            summaries = {PF.PJ + 'recurrence_abc': _abc_summary}
            if not direct:
                summaries[PF.PJ + 'jacobi_seq'] = _seq_summary
                summaries[PF.PJ + 'jacobi_der_seq'] = _seq_summary
            dom = ShapeDomain(summaries)
            it = Interp(db, dom)
            params = [p for p in f.params]
            kw = {}
            for p in params:
                if p in ('ns',):
                    kw[p] = NsV()
                elif p == 'x':
                    kw[p] = Sh(S) if rank else Scalar()
                else:
                    kw[p] = Scalar()
            if rank == 0:
                # a 0-d array still has .shape/.dtype: model it as an array of shape ()
                kw['x'] = Sh(())
            res = it.run(f, kwargs=lambda: dict(kw))
            rets = [p for p in res if p.outcome == 'return']
            if not rets:
                raise AnalysisError('%s: no returning path at rank %d' % (qual, rank))
            bad = None
            for p in rets:
                errs = [e for e in p.events if e['kind'] in ('broadcast-error', 'index-error', 'loop-shape-change') or (e['kind'] == 'store' and e['ok'] is False)]
                v = p.value
                want = ('K',) + S
                if errs:
                    e = errs[0]
                    bad = ('operands of shapes %s and %s do not broadcast' % (e.get('a'), e.get('b'))) if e['kind'] == 'broadcast-error' else ('%s: stored value of shape %s into a slot of shape %s' % (e['kind'], e.get('value'), e.get('sub')))
                    break
                if not isinstance(v, Sh):
                    raise AnalysisError('%s: result shape unknown at rank %d on path %s: %r' % (qual, rank, p.conds, v))
                if v.dims != want:
                    bad = 'result has shape %s' % (v.dims,)
                    break
                grow = [e for e in p.events if e['kind'] == 'broadcast-grow' and 'K' in e['result'] and e['result'] != want and len(e['result']) != len(want)]
            run.check(bad is None, 'C08.shape', f.qual, 'result shape',
                      'result shape is (K, *S) for a rank-%d coordinate array with distinct dimensions; per-order constants broadcast along axis 0 only' % rank,
                      'for a rank-%d coordinate array (shape %s, dimensions distinct from the number of orders K): %s; expected shape %s' % (rank, S, bad, ('K',) + S), f.loc())


def _shape_of_value_fn(db, qual, kw, summaries):
    """Set of result shapes of a single-order function over all its paths."""
    f = db.func(qual)
    dom = ShapeDomain(summaries)
    it = Interp(db, dom)
    out = set()
    for p in it.run(f, kwargs=lambda: dict(kw)):
        if p.outcome != 'return':
            continue
        if any(e['kind'] in ('broadcast-error', 'index-error') for e in p.events):
            raise AnalysisError('%s: shape error in the single-order function on path %s' % (qual, p.conds))
        v = p.value
        if isinstance(v, Sh):
            out.add(v.dims)
        elif isinstance(v, Scalar):
            out.add(())
        else:
            raise AnalysisError('%s: result shape unknown on path %s: %r' % (qual, p.conds, v))
    if not out:
        raise AnalysisError('%s: no returning path' % qual)
    return out


def _value_summary(dom, fi, args, kwargs, node):
    """jacobi / Qbfs etc. at one order: shape of the coordinate."""
    x = args[-1] if args else kwargs.get('x')
    return x if isinstance(x, (Sh, Scalar)) else Unknown('value of unknown x')


def _scalar_summary(dom, fi, args, kwargs, node):
    return Scalar()


def seq2_shape_rules(run, db):
    """Two-index sequence functions: every mode has the shape the single-term function returns, whatever the branch taken."""
    Q = P + 'qpoly.'
    seq_summ = {PF.PJ + 'jacobi_seq': _seq_summary, PF.PD + 'dickson2_seq': _seq_summary, Q + 'Qbfs_seq': _seq_summary,
                PF.PJ + 'jacobi': _value_summary, Q + 'Qbfs': _value_summary, PF.PJ + 'recurrence_abc': _abc_summary,
                Q + 'abc_q2d': _abc_summary}
    for nm in ('f_q2d', 'g_q2d', 'f_qbfs', 'g_qbfs', 'h_qbfs'):
        seq_summ[Q + nm] = _scalar_summary
    seq_summ[P + 'zernike.zernike_norm'] = _scalar_summary
    table = [
        (P + 'zernike.zernike_nm_seq', P + 'zernike.zernike_nm', ('r', 't'), 'nms', {'norm': [Const(True), Const(False)]}, range(0, 4), 'array'),
        (Q + 'Q2d_seq', Q + 'Q2d', ('r', 't'), 'nms', {}, range(0, 4), 'array'),
        (P + 'xy.xy_seq', P + 'xy.xy', ('x', 'y'), 'mns', {'cartesian_grid': [Const(True), Const(False)]}, range(1, 4), 'list'),
    ]
    for qseq, qone, coords, pairs, opts, ranks, kind in table:
        f = db.func(qseq)
        one = db.func(qone)
        optname = list(opts)[0] if opts else None
        for optval in (opts[optname] if optname else [None]):
            for rank in ranks:
                S = tuple('S%d' % i for i in range(rank))
                kw = {c: Sh(S) for c in coords}
                if optname:
                    kw[optname] = optval
                label = 'rank %d%s' % (rank, ', %s=%s' % (optname, optval.v) if optname else '')
                # the shape of one term according to the single-term function
                kw1 = dict(kw)
                for pn in one.params:
                    if pn not in kw1 and pn in ('n', 'm'):
                        kw1[pn] = Scalar()
                want = _shape_of_value_fn(db, qone, kw1, seq_summ)
                dom = ShapeDomain(seq_summ)
                it = Interp(db, dom)
                kws = dict(kw)
                kws[pairs] = PairsV()
                res = [p for p in it.run(f, kwargs=lambda: dict(kws)) if p.outcome == 'return']
                if not res:
                    raise AnalysisError('%s: no returning path (%s)' % (qseq, label))
                bad = None
                nterms = 0
                for p in res:
                    errs = [e for e in p.events if e['kind'] in ('broadcast-error', 'index-error', 'loop-shape-change') or (e['kind'] == 'store' and e['ok'] is False)]
                    if errs:
                        e = errs[0]
                        bad = ('path %s: operands of shapes %s and %s do not broadcast' % (p.conds, e.get('a'), e.get('b'))) if e['kind'] == 'broadcast-error' \
                            else ('path %s: %s: value of shape %s stored into a slot of shape %s' % (p.conds, e['kind'], e.get('value'), e.get('sub')))
                        break
                    v = p.value
                    if kind == 'array':
                        if not isinstance(v, Sh):
                            raise AnalysisError('%s: result shape unknown (%s) on path %s: %r' % (qseq, label, p.conds, v))
                        terms = {v.dims[1:]} if v.dims[:1] == ('K',) else {('?',) + v.dims}
                        # a stored value narrower than the slot is broadcast by the store: that is still the slot shape
                    else:
                        if not (isinstance(v, Tup) and v.kind == 'list' and v.items):
                            raise AnalysisError('%s: result is not a non-empty list (%s) on path %s: %r' % (qseq, label, p.conds, v))
                        terms = set()
                        for x in v.items:
                            if isinstance(x, Sh):
                                terms.add(x.dims)
                            elif isinstance(x, Scalar):
                                terms.add(())
                            else:
                                raise AnalysisError('%s: term shape unknown (%s): %r' % (qseq, label, x))
                    nterms += 1
                    if not terms <= want:
                        bad = 'on the path %s a mode has shape %s, but %s returns shape %s for one term' % (
                            [c for c, t in p.conds if t][-3:], sorted(terms - want)[0], one.name, sorted(want))
                        break
                run.check(bad is None, 'C08.shape2', f.qual, label,
                          'every mode of %s has the shape %s returns for one term (%s), on all %d paths' % (f.name, one.name, label, len(res)),
                          '%s vs %s for %s coordinates %s: %s' % (f.name, one.name, label, S, bad), f.loc())


def sibling_rules(run, db):
    """Chebyshev sequence functions use the same per-order constant and Jacobi parameters as the scalar ones."""
    it, dom = norm_interp(db)
    R = dom.R

    def call_prysm(fi, args, kwargs, node):
        if fi.qual in (PF.PJ + 'jacobi', PF.PJ + 'jacobi_der', PF.PJ + 'jacobi_seq', PF.PJ + 'jacobi_der_seq'):
            nm = fi.name.replace('_seq', '')
            a = list(args)
            # the order list of a *_seq call and the scalar order are both called `n`; x = ones(1) is the point 1
            return dom.func_atom(nm, a)
        return None
    dom.call_prysm = call_prysm
    orig = dom.call_ext

    def call_ext(dotted, args, kwargs, node):
        if dotted == 'numpy.ones' and args and isinstance(args[0], Const) and args[0].v == 1:
            return Const(1)
        if dotted in ('builtins.list', 'numpy.asarray') and args and isinstance(args[0], Sym):
            return args[0]
        return orig(dotted, args, kwargs, node)
    dom.call_ext = call_ext
    orig_sub = dom.subscript

    def subscript(v, idx, node):
        if isinstance(v, Sym) and isinstance(idx, Tup) and any(isinstance(x, Const) and x.v is None for x in idx.items):
            return v
        # values at the single point x = ones(1), one row per order: [:, 0] keeps every order and takes the only sample
        from ..core.interp import Slice as _Slice
        full = lambda x: isinstance(x, _Slice) and all(isinstance(z, Const) and z.v is None for z in (x.lo, x.hi, x.step))
        if isinstance(v, Sym) and isinstance(idx, Tup) and len(idx.items) >= 2 and full(idx.items[0]) and all(full(x) or (isinstance(x, Const) and x.v in (0, None)) for x in idx.items[1:]):
            return v
        return orig_sub(v, idx, node)
    dom.subscript = subscript
    for k in (1, 2, 3, 4):
        for d in ('', '_der'):
            fs = db.func(P + 'cheby.cheby%d%s' % (k, d))
            fq = db.func(P + 'cheby.cheby%d%s_seq' % (k, d))
            vs = returns(it.run(fs, kwargs=lambda: {'n': dom.sym('n'), 'x': dom.sym('x')}), fs)
            vq = returns(it.run(fq, kwargs=lambda: {'ns': dom.sym('n'), 'x': dom.sym('x')}), fq)
            a, b = dom.rat(vs[0].value), dom.rat(vq[0].value)
            if a is None or b is None:
                raise AnalysisError('cheby%d%s: value outside NORM' % (k, d))
            run.check(a == b, 'C08.sibling', fq.qual, 'per-order constant', '%s applies per order exactly what %s applies to one order' % (fq.name, fs.name),
                      '%s computes %s per order but %s computes %s' % (fq.name, b.key(), fs.name, a.key()), fq.loc())
    for nm in ('legendre', 'legendre_der'):
        fs = db.func(P + 'legendre.' + nm)
        fq = db.func(P + 'legendre.' + nm + '_seq')
        vs = returns(it.run(fs, kwargs=lambda: {'n': dom.sym('n'), 'x': dom.sym('x')}), fs)
        vq = returns(it.run(fq, kwargs=lambda: {'ns': dom.sym('n'), 'x': dom.sym('x')}), fq)
        run.check(dom.rat(vs[0].value) == dom.rat(vq[0].value), 'C08.sibling', fq.qual, 'delegation', '%s_seq delegates like %s' % (nm, nm), '%s_seq and %s use different Jacobi parameters' % (nm, nm), fq.loc())


def neg_rules(run, db):
    """No order that can be negative reaches a recurrence."""
    # laguerre_der / laguerre_der_seq, hermite *_der, jacobi_der: the order handed to the value function
    table = [(PF.PL + 'laguerre_der', PF.PL + 'laguerre'), (PF.PH + 'hermite_He_der', PF.PH + 'hermite_He'), (PF.PH + 'hermite_H_der', PF.PH + 'hermite_H'), (PF.PJ + 'jacobi_der', PF.PJ + 'jacobi')]
    from .memo import _reach
    for qual, callee in table:
        f = db.func(qual)
        it, dom = PF.mk_order(db)
        dom.lower['n'] = 0
        seen = []
        # the routines that carry the recurrence: the value function, or whichever routine it hands its order to that has the sweep
        carriers = {callee} | {q for q in _reach(db, [db.func(callee)], 3) if db.has_func(q) and any(isinstance(n_, (ast.For, ast.While)) for n_ in walk_no_nested(db.func(q).node))}

        def call_prysm(fi, args, kwargs, node, dom=dom, seen=seen, callee=callee, carriers=carriers):
            if fi.qual in carriers:
                # the order handed on: the argument that is a function of this routine's own order n (whatever the parameter is called)
                cands = [dom.rat(a) for a in list(args) + list(kwargs.values())]
                cands = [r for r in cands if r is not None and 'n' in r.atoms()] if fi.qual != callee else [dom.rat(args[0])]
                if len(cands) != 1 or cands[0] is None:
                    raise AnalysisError('%s: which argument of %s is the order is not followed' % (qual, fi.name))
                r = cands[0]
                lo = dom._min(r.num * (1 / r.den.const_value())) if r is not None and r.den.is_const() else None
                seen.append((r, lo, node))
                return dom.func_atom(fi.name, list(args))
            return None
        dom.call_prysm = call_prysm
        kw = {p: dom.sym(p) for p in f.params}
        it.run(f, kwargs=lambda: dict(kw))
        if not seen:
            raise AnalysisError('%s does not call %s' % (qual, callee))
        for r, lo, node in seen:
            run.check(lo is not None and lo >= 0, 'C08.neg', f.qual, 'order passed to %s' % callee.split('.')[-1], 'the order %s passed on is >= 0 for every n >= 0' % (r.key() if r is not None else '?'),
                      'for n = 0 the order %s (minimum %s) is passed to %s: a negative order reaches the recurrence and an unrelated polynomial is returned' % (r.key() if r is not None else '?', lo, callee.split('.')[-1]), f.loc(node))
    # sequence form: a shifted order list must not reach a sequence function
    f = db.func(PF.PL + 'laguerre_der_seq')
    it, dom = PF.mk_order(db)
    got = []

    def call_prysm(fi, args, kwargs, node):
        if fi.qual == PF.PL + 'laguerre_seq':
            got.append((args[0], node, dom.seq_min(args[0]) if isinstance(args[0], SeqV) else None))
            return OutV()
        return None
    dom.call_prysm = call_prysm
    it.run(f, kwargs=lambda: {'ns': SeqV('ns'), 'alpha': dom.sym('alpha'), 'x': dom.sym('x')})
    if not got:
        raise AnalysisError('laguerre_der_seq does not call laguerre_seq')
    for sv, node, lo in got:
        run.check(lo is not None and lo >= 0, 'C08.neg', f.qual, 'orders passed to laguerre_seq', 'every order handed to the sweep is >= 0 (order 0 is handled before)',
                  'the orders handed to laguerre_seq can be as low as %s: a requested order 0 becomes -1, which no guard of the sweep matches, so its slot is never written' % lo, f.loc(node))


def table_rules(run, db):
    """xy_seq: the monomial table must hold x**k for every k >= 0 (in particular 1 for k = 0)."""
    f = db.func(P + 'xy.xy_seq')
    calls = [n for n in walk_no_nested(f.node) if isinstance(n, ast.Call) and isinstance(n.func, ast.Name) and n.func.id.endswith('_seq')]
    if len(calls) != 2:
        raise AnalysisError('xy_seq: expected two monomial-table calls')
    it, dom = PF.mk_order(db)
    R = dom.R
    x = Rat(R.atom('x'))
    for c in calls:
        name = c.func.id
        fam = name.replace('_seq', '')
        if fam not in PF.FAMILIES:
            raise AnalysisError('xy_seq: unknown table family %s' % fam)
        a = ast.unparse(c.args[1]) if len(c.args) > 1 else None
        pv = {'alpha': Rat(R.const(int(a)))} if a is not None and a.lstrip('-').isdigit() else None
        if pv is None:
            raise AnalysisError('xy_seq: table parameter not a literal')
        bad = [(k, dom.explicit(fam, pv, k).key()) for k in range(0, 4) if not (dom.explicit(fam, pv, k) == x ** k)]
        run.check(not bad, 'C08.table', f.qual, ast.unparse(c), '%s(k, %s, x) == x**k for k = 0..3 (and by its recurrence for all k)' % (fam, a),
                  'the monomial table %s holds %s instead of x**%d: every term with a zero exponent is scaled' % (ast.unparse(c), bad[0][1] if bad else '', bad[0][0] if bad else 0), f.loc(c))
    # lookup: the term stored for request (m, n) is x_table[m] * y_table[n], in request order, with tables that hold the
    # orders 0..max contiguously (so list index == order).  Decided by interpreting the function, not by its spelling.
    from . import seqtables as ST
    from ..core.interp import Frame, Value
    from .common import snapshot_loops, loop_as_function
    fams = sorted({c.func.id for c in calls})
    it2, dom2 = ST.mk(db, atoms=tuple(x_[:-4] for x_ in fams), seqs=tuple(fams))
    R2 = dom2.R
    orig_method, orig_ext = dom2.method, dom2.call_ext

    def method(v, name, args, kwargs, node):
        if name == 'max' and isinstance(kwargs.get('axis'), Const) and kwargs['axis'].v == 0 and dom2.rat(v) is not None and dom2.rat(v) == Rat(R2.atom('mns')):
            return Tup([dom2.sym('colmax0'), dom2.sym('colmax1')])
        return orig_method(v, name, args, kwargs, node)

    def call_ext(dotted, args, kwargs, node):
        if dotted in ('numpy.asarray', 'numpy.array') and args:
            return args[0]
        return orig_ext(dotted, args, kwargs, node)
    dom2.method, dom2.call_ext = method, call_ext
    snaps = snapshot_loops(it2, dom2)
    it2.run(f, kwargs=lambda: {'mns': dom2.sym('mns'), 'x': dom2.sym('x'), 'y': dom2.sym('y'), 'cartesian_grid': Const(False)})
    dom2.loop = lambda node, frame: False
    loops = [n for n in f.node.body if isinstance(n, ast.For)]
    sn = [s_ for s_ in snaps if loops and s_.node is loops[-1]]
    comps = [n for n in walk_no_nested(f.node) if isinstance(n, ast.ListComp) and len(n.generators) == 1 and isinstance(n.generators[0].iter, ast.Name) and n.generators[0].iter.id == 'mns'
             and isinstance(n.generators[0].target, ast.Tuple) and len(n.generators[0].target.elts) == 2 and not n.generators[0].ifs]
    if not loops and len(comps) == 1:
        # the accumulation written as a comprehension over the requests: its element, evaluated with the tables the function built
        paths_ = it2.run(f, kwargs=lambda: {'mns': dom2.sym('mns'), 'x': dom2.sym('x'), 'y': dom2.sym('y'), 'cartesian_grid': Const(False)})
        envs = [p_.frame.env for p_ in paths_ if p_.frame is not None]
        if not envs:
            raise AnalysisError('xy_seq: the request comprehension was not reached')
        env = dict(envs[0])
        tg = [e.id for e in comps[0].generators[0].target.elts if isinstance(e, ast.Name)]
        if len(tg) != 2:
            raise AnalysisError('xy_seq: the request comprehension does not unpack (m, n)')
        env.update({tg[0]: dom2.sym('m'), tg[1]: dom2.sym('n')})
        it2._reset_run([])
        elt = it2.ev(comps[0].elt, Frame(f, f.module, env))
        fam = fams[0][:-4] if len(fams) == 1 else None
        A2 = lambda nme: Rat(R2.atom(nme))
        want = Rat(R2.func(fam, [A2('m'), Rat(R2.const(0)), A2('x')])) * Rat(R2.func(fam, [A2('n'), Rat(R2.const(0)), A2('y')])) if fam else None
        got = dom2.rat(elt)
        run.check(want is not None and got is not None and got == want, 'C08.table', f.qual, 'lookup', 'term (m, n) is x_table[m] * y_table[n], one per request in request order',
                  'xy_seq yields %s for the request (m, n), expected %s' % (got.key() if got is not None else repr(elt), want.key() if want is not None else '?'), f.loc(comps[0]))
        laws = {k: v for k, v in env.items() if isinstance(v, ST.Law)}
        labels = sorted(v.label for v in laws.values() if ' over ' in v.label)
        if len(labels) < 2:
            # the tables may be used in place (list(dickson2_seq(...))[m]): read the order arrays off every law created
            labels = sorted(set(getattr(dom2, 'law_labels', [])))
        okl = labels == sorted('%s over arange(0, %s)' % (fams[0], (A2(c_) + 1).key()) for c_ in ('colmax0', 'colmax1')) if fam else False
        run.check(okl, 'C08.table', f.qual, 'table orders', 'the x / y tables hold the orders 0..max(m) / 0..max(n) contiguously, so list index == order',
                  'the monomial tables are built over %s' % labels, f.loc())
        fxy = db.func(P + 'xy.xy')
        rets = [n for n in walk_no_nested(fxy.node) if isinstance(n, ast.Return)]
        run.check(len(rets) == 1 and ast.unparse(rets[0].value).replace(' ', '') == 'x**m*y**n', 'C08.table', fxy.qual, 'definition', 'xy == x**m y**n', 'xy is not x**m * y**n', fxy.loc())
        return
    if len(loops) != 1 or not sn:
        raise AnalysisError('xy_seq: the request loop was not reached')
    L = loops[0]
    tg = [e.id for e in L.target.elts] if isinstance(L.target, ast.Tuple) and all(isinstance(e, ast.Name) for e in L.target.elts) else []
    rets = [n for n in walk_no_nested(f.node) if isinstance(n, ast.Return) and isinstance(n.value, ast.Name)]
    if len(tg) != 2 or len(rets) != 1 or not (isinstance(L.iter, ast.Name) and L.iter.id == 'mns'):
        raise AnalysisError('xy_seq: the request loop is not `for <m>, <n> in mns` feeding the returned list')
    outn = rets[0].value.id
    env = sn[0].env
    laws = {k: v for k, v in env.items() if isinstance(v, ST.Law)}
    stepf, params = loop_as_function(f, L, [outn])
    lst = Tup([], 'list')
    kw = {p_: env.get(p_, dom2.sym(p_)) for p_ in params}
    kw.update({tg[0]: dom2.sym('m'), tg[1]: dom2.sym('n'), outn: lst})
    rs = [q for q in it2.run(stepf, kwargs=lambda: dict(kw)) if q.outcome == 'return']
    fam = fams[0][:-4] if len(fams) == 1 else None
    A2 = lambda nme: Rat(R2.atom(nme))
    want = Rat(R2.func(fam, [A2('m'), Rat(R2.const(0)), A2('x')])) * Rat(R2.func(fam, [A2('n'), Rat(R2.const(0)), A2('y')])) if fam else None
    got = dom2.rat(lst.items[0]) if len(lst.items) == 1 else None
    ok = len(rs) == 1 and want is not None and got is not None and got == want
    run.check(ok, 'C08.table', f.qual, 'lookup', 'term (m, n) is x_table[m] * y_table[n], appended once per request in request order',
              'xy_seq appends %s for the request (m, n), expected %s' % ([dom2.rat(v).key() if dom2.rat(v) is not None else repr(v) for v in lst.items], want.key() if want is not None else '?'), f.loc(L))
    labels = sorted(v.label for v in laws.values() if ' over ' in v.label)
    okl = labels == sorted('%s over arange(0, %s)' % (fams[0], (A2(c_) + 1).key()) for c_ in ('colmax0', 'colmax1')) if fam else False
    run.check(okl, 'C08.table', f.qual, 'table orders', 'the x / y tables hold the orders 0..max(m) / 0..max(n) contiguously, so list index == order',
              'the monomial tables are built over %s' % labels, f.loc())
    fxy = db.func(P + 'xy.xy')
    rets = [n for n in walk_no_nested(fxy.node) if isinstance(n, ast.Return)]
    run.check(len(rets) == 1 and ast.unparse(rets[0].value).replace(' ', '') == 'x**m*y**n', 'C08.table', fxy.qual, 'definition', 'xy == x**m y**n', 'xy is not x**m * y**n', fxy.loc())


def shared_rules(run, db):
    """Tables shared across requested (n, m): no entry is written in place through an alias."""
    from .purity import shared_entry_mutations
    for qual in (P + 'zernike.zernike_nm_seq', P + 'xy.xy_seq'):
        f = db.func(qual)
        sites = set()
        bad = shared_entry_mutations(f, sites)
        if not sites:
            # nothing binds a table entry to a name: there is no alias to write through; the tables must still be read
            subs = [n for n in ast.walk(f.node) if isinstance(n, ast.Subscript) and isinstance(n.ctx, ast.Load)]
            if not subs:
                raise AnalysisError('%s: no table lookups inside the request loop' % qual)
            run.ok('C08.shared', f.qual, 'no table entry is bound to a local name (lookups are used in place)')
        badsites = {r for _, _, r in bad}
        for ln, text in sorted(sites):
            if text not in badsites:
                run.ok('C08.shared', f.qual, 'entry %s is only read' % text)
        for st, nm, r in bad:
            run.finding('C08.shared', f.qual, 'in-place write through %s' % nm,
                        '`%s` writes in place through `%s`, which may alias the shared table entry %s: a later requested mode with the same key reads the modified entry '
                        '(e.g. (n, -m) after (n, m), or a repeated term), so the sequence no longer equals one-at-a-time evaluation' % (norm_stmt(st), nm, r), f.loc(st))


def check(run, db, tier):
    run.trust('ORDER engine for the emission sweeps; SHAPE domain (right-aligned broadcasting over pairwise-distinct symbolic dimensions); reference families of sa/rules/polyfam.py')
    run.assume('requested orders are ascending non-negative integers (the documented contract); bitwise float equality of the two evaluation orders is not decided',
               'hopkins / zernike_nm_der_seq (a plain loop over zernike_nm_der) are not covered by a sequence rule')
    run.rule('C08.emit', 'each store guarded by ns[k] == e holds the order-e polynomial (derivative), in slot k; the running index advances once per store; the sweep ends at ns[-1]')
    run.rule('C08.shape', 'every sequence function returns shape (K, *S) for coordinate ranks 0..3; per-order constants broadcast along axis 0 only')
    run.rule('C08.sibling', 'sequence and scalar functions apply the same per-order constant and parameters')
    run.rule('C08.neg', 'no order that can be negative reaches a recurrence')
    run.rule('C08.table', 'xy_seq monomial tables hold x**k for every k including 0; lookup in request order')
    run.rule('C08.shared', 'per-|m| / per-exponent tables shared across the requested terms are never written in place through an alias (may-alias, joined over branches)')
    run.rule('C08.shape2', 'two-index sequence functions (zernike_nm_seq, Q2d_seq, xy_seq): every mode has the shape the single-term function returns, for coordinate ranks 0..3, on every branch')
    run.rule('C08.table2', 'zernike_nm_seq: table laws (orders 0..max per |m|, Jacobi/radial/azimuthal tables) make the stored mode equal zernike_nm(n, m) for m = 0, m > 0, m < 0, norm on/off; slot i holds request i')
    run.rule('C08.qseq', 'Qbfs_seq / Qcon_seq / Q2d_seq: pre-sweep stores, sweep start, one pass and emission equal the single-order function; per-m tables hold Q2d radial parts index == order; request loop equals Q2d(n, m)')
    from . import seqtables
    for fn in (emit_rules, shape_rules, seq2_shape_rules, sibling_rules, neg_rules, table_rules, shared_rules,
               seqtables.zernike_rules, seqtables.qbfs_seq_rules, seqtables.qcon_seq_rules, seqtables.q2d_seq_rules):
        run.group(fn, run, db)
    run.rule('C08.fixed', 'for fixed order lists (dense, with gaps, single high order) and a symbolic coordinate, every slot of a *_seq function is identically the single-order function of the order requested there')
    from . import fixedorders
    run.group(fixedorders.fixed_order_rules, run, db, 'C08.fixed')
    run.require_instances('C08.emit', 60)
    run.require_instances('C08.shape', 80)
    run.require_instances('C08.sibling', 10)
    run.require_instances('C08.shared', 3)
    run.require_instances('C08.table2', 16)
    run.require_instances('C08.qseq', 40)
