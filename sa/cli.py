"""Command line: ./check Cxx [--tier quick|thorough] [--root DIR] [--replay FILE] | --selfcheck"""
import argparse
import importlib
import json
import os
import sys
import traceback

from .core.db import DB, AnalysisError
from .core.norm import NormError
from .core import report

CLAIMED = None


def run_property(prop, tier, root, only_key=None, write_evidence=True, quiet=False):
    db = DB(root)
    run = report.Run(prop, tier, root)
    mod = importlib.import_module('sa.rules.%s' % prop.lower())
    # an analysis error that escapes a rule module is recorded like one raised inside a rule group: definite findings
    # collected before it are still reported (exit 1 wins over exit 2), and without findings the run is exit 2
    run.group(mod.check, run, db, tier)
    from .rules.memo import memo_group
    run.group(memo_group, run, db, prop)
    return report.finish(run, only_key=only_key, write_evidence=write_evidence, quiet=quiet), run


def main(argv=None):
    ap = argparse.ArgumentParser()
    ap.add_argument('prop', nargs='?')
    ap.add_argument('--tier', default=os.environ.get('VERIF_TIER') or 'quick')
    ap.add_argument('--root', default=os.environ.get('PRYSM_ROOT', '/repo'))
    ap.add_argument('--replay')
    ap.add_argument('--selfcheck', action='store_true')
    ap.add_argument('--no-evidence', action='store_true')
    args = ap.parse_args(argv)
    try:
        if args.selfcheck:
            from .selftest import selfcheck
            return selfcheck.main(args.root)
        if not args.prop:
            ap.error('property id required')
        only = None
        if args.replay:
            with open(args.replay) as fh:
                only = json.load(fh)['key']
        code, run = run_property(args.prop, args.tier, args.root, only_key=only,
                                 write_evidence=not args.no_evidence and not args.replay)
        if args.tier == 'thorough' and code == 0 and not args.replay:
            from .selftest import mutants
            code = mutants.discrimination(args.prop, args.root)
        return code
    except (AnalysisError, NormError) as e:
        print('ANALYSIS-ERROR property=%s: %s' % (args.prop, e))
        return 2
    except Exception:
        traceback.print_exc()
        print('ANALYSIS-ERROR property=%s: internal error (traceback above)' % args.prop)
        return 2


if __name__ == '__main__':
    sys.exit(main())
